"""History-independence probe for the TOAST geometry API (used by C04, C05, C06, C12).

The properties speak of *the* tile at (n, x, y) in a coordinate system and *the*
coordinates of its pixels: the answers must not depend on which calls were made
before in the same process.  Module-level caches keyed without the coordinate
system, or arrays handed out and later modified in place, break that without
changing the result of any single call in a fresh process.

Reference answers are computed in fresh subprocesses that use ONE coordinate
system and ONE kind of call each; the probing process then issues a random
interleaving of the same calls (both systems, all kinds, with repetitions) and
every answer must be bit-identical to the reference.
"""
import hashlib
import json
import os
import subprocess
import sys

REF_CODE = r"""
import sys, json, hashlib
import numpy as np
from toasty import toast
from toasty.pyramid import Pos
cs = toast.ToastCoordinateSystem(sys.argv[1]); kind = sys.argv[2]
positions = json.loads(sys.argv[3]); points = json.loads(sys.argv[4])
def h(*arrs):
    m = hashlib.sha1()
    for a in arrs: m.update(np.ascontiguousarray(np.asarray(a, dtype=np.float64)).tobytes())
    return m.hexdigest()
def tile_sig(t):
    return [list(map(int, t.pos)), h(*[np.asarray(c, dtype=np.float64) for c in t.corners]) if t.pos.n > 0 else "root", bool(t.increasing)]
out = {}
if kind == "single":
    for p in positions: out[json.dumps(p)] = tile_sig(toast.create_single_tile(Pos(*p), cs))
elif kind == "coords":
    for p in positions:
        lon, lat = toast.toast_tile_get_coords(toast.create_single_tile(Pos(*p), cs)); out[json.dumps(p)] = h(lon, lat)
elif kind == "lookup":
    for (d, lat, lon) in points: out[json.dumps([d, lat, lon])] = tile_sig(toast.toast_tile_for_point(d, lat, lon, coordsys=cs))
elif kind == "pixel":
    for (d, lat, lon) in points:
        t, x, y = toast.toast_pixel_for_point(d, lat, lon, coordsys=cs); out[json.dumps([d, lat, lon])] = tile_sig(t) + [float(x).hex(), float(y).hex()]
elif kind == "enum":
    for t in toast.generate_tiles(3, bottom_only=False, coordsys=cs): out[json.dumps(list(map(int, t.pos)))] = tile_sig(t)
print(json.dumps(out))
"""


def _reference(repo, cs, kind, positions, points):
    env = dict(os.environ, PYTHONPATH=repo, PYTHONHASHSEED="0", PYTHONDONTWRITEBYTECODE="1")
    r = subprocess.run([sys.executable, "-c", REF_CODE, cs, kind, json.dumps(positions), json.dumps(points)],
                       capture_output=True, text=True, env=env, timeout=300)
    if r.returncode != 0:
        raise RuntimeError(f"reference process failed ({cs}, {kind}): {r.stderr[-800:]}")
    return json.loads(r.stdout.strip().splitlines()[-1])


def run(V, repo, rng, n_ops=260, kinds=("single", "coords", "lookup", "pixel", "enum"), label="history"):
    """Returns the number of probing calls made; reports disagreements through V."""
    import numpy as np
    from toasty import toast
    from toasty.pyramid import Pos

    def h(*arrs):
        m = hashlib.sha1()
        for a in arrs:
            m.update(np.ascontiguousarray(np.asarray(a, dtype=np.float64)).tobytes())
        return m.hexdigest()

    def tile_sig(t):
        return [list(map(int, t.pos)),
                h(*[np.asarray(c, dtype=np.float64) for c in t.corners]) if t.pos.n > 0 else "root", bool(t.increasing)]

    positions = [[1, 0, 0], [1, 1, 1], [2, 1, 0], [2, 2, 3], [3, 5, 2], [3, 0, 7], [4, 9, 9], [5, 17, 3]]
    positions += [[n, rng.randrange(2 ** n), rng.randrange(2 ** n)] for n in (2, 3, 3, 4, 6)]
    points = []
    for p in positions[:8]:
        # a point inside each probed tile (its centre pixel), so lookups and grid requests hit the same tiles
        t = toast.create_single_tile(Pos(*p))
        lon, lat = toast.toast_tile_get_coords(t)
        points.append([p[0], float(lat[100, 77]), float(lon[100, 77]) % (2 * np.pi)])
    points += [[rng.choice((1, 2, 3, 5)), rng.uniform(-1.5, 1.5), rng.uniform(0, 6.28)] for _ in range(6)]
    # the same points rotated by pi: a planetary lookup of the rotated point resolves to the SAME
    # (n, x, y) as the astronomical lookup of the original one (and vice versa)
    points += [[d, la, (lo + np.pi) % (2 * np.pi)] for d, la, lo in points[:8]]
    systems = ("astronomical", "planetary")
    from concurrent.futures import ThreadPoolExecutor
    keys = [(cs, kind) for cs in systems for kind in kinds]
    with ThreadPoolExecutor(max_workers=10) as ex:
        ref = dict(zip(keys, ex.map(lambda ck: _reference(repo, ck[0], ck[1], positions, points), keys)))
    ops = []
    for _ in range(n_ops):
        kind = rng.choice([k for k in kinds if k != "enum"] * 3 + (["enum"] if "enum" in kinds else []))
        cs = rng.choice(systems)
        arg = rng.choice(points) if kind in ("lookup", "pixel") else (rng.choice(positions) if kind != "enum" else None)
        ops.append((cs, kind, arg))
    done = 0
    for i, (cs, kind, arg) in enumerate(ops):
        csv = toast.ToastCoordinateSystem(cs)
        try:
            if kind == "single":
                got = {json.dumps(arg): tile_sig(toast.create_single_tile(Pos(*arg), csv))}
            elif kind == "coords":
                lon, lat = toast.toast_tile_get_coords(toast.create_single_tile(Pos(*arg), csv))
                got = {json.dumps(arg): h(lon, lat)}
            elif kind == "lookup":
                got = {json.dumps(arg): tile_sig(toast.toast_tile_for_point(arg[0], arg[1], arg[2], coordsys=csv))}
            elif kind == "pixel":
                t, x, y = toast.toast_pixel_for_point(arg[0], arg[1], arg[2], coordsys=csv)
                got = {json.dumps(arg): tile_sig(t) + [float(x).hex(), float(y).hex()]}
            else:
                got = {json.dumps(list(map(int, t.pos))): tile_sig(t)
                       for t in toast.generate_tiles(3, bottom_only=False, coordsys=csv)}
        except Exception as e:  # an exception that the fresh process does not raise
            got = {"exception": repr(e)}
        done += 1
        bad = [k for k, v in got.items() if ref[(cs, kind)].get(k) != v]
        if bad:
            V.disagreement(
                f"history independence of the TOAST geometry API ({label}): the answer of `{kind}` in the {cs} system depends on earlier calls",
                dict(part="history", failing_call=[cs, kind, arg], preceding_calls=[list(o) for o in ops[max(0, i - 12):i]],
                     n_preceding=i),
                dict(reference_in_fresh_process=ref[(cs, kind)].get(bad[0])), dict(observed=got.get(bad[0])), True)
            break
    # two enumerations alive at the same time (generators advanced in turn): each must still deliver
    # exactly its own tiles
    if "enum" in kinds:
        for trial in range(3):
            ca, cb = (systems[0], systems[1]) if trial != 1 else (systems[1], systems[1])
            ga = toast.generate_tiles(3, bottom_only=False, coordsys=toast.ToastCoordinateSystem(ca))
            if trial == 2:
                gb = toast.generate_tiles_filtered(3, lambda t: True, bottom_only=False, coordsys=toast.ToastCoordinateSystem(cb))
            else:
                gb = toast.generate_tiles(3, bottom_only=False, coordsys=toast.ToastCoordinateSystem(cb))
            got = {0: {}, 1: {}}
            live = [0, 1]
            gens = {0: ga, 1: gb}
            err = None
            while live:
                k = rng.choice(live)
                try:
                    for _ in range(rng.randint(1, 5)):
                        t = next(gens[k])
                        got[k][json.dumps(list(map(int, t.pos)))] = tile_sig(t)
                except StopIteration:
                    live.remove(k)
                except Exception as e:  # noqa
                    err = repr(e)
                    break
            done += 1
            for k, cs in ((0, ca), (1, cb)):
                if err is not None or got[k] != ref[(cs, "enum")]:
                    miss = sorted(set(ref[(cs, "enum")]) - set(got[k]))[:3]
                    wrong = [q for q in got[k] if ref[(cs, "enum")].get(q) != got[k][q]][:3]
                    V.disagreement(
                        f"history independence of the TOAST geometry API ({label}): two tile enumerations advanced in turn "
                        f"do not each deliver their own tiles",
                        dict(part="history", interleaved=[ca, cb], filtered_second=(trial == 2)),
                        dict(tiles=len(ref[(cs, "enum")])),
                        dict(delivered=len(got[k]), missing=miss, wrong=wrong, error=err), True)
                    return done
    return done
